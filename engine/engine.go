package main

import (
	"fmt"
	"go/token"
	"go/types"
	"os"
	"path/filepath"
	"runtime/debug"
	"sort"
	"strings"
	"sync"
	"sync/atomic"
	"time"

	"golang.org/x/tools/go/packages"
	"golang.org/x/tools/go/ssa"
	"golang.org/x/tools/go/ssa/ssautil"
)

const polyMod = "github.com/polynetwork/poly"
const zzsymPath = polyMod + "/zzsym"

type intrinsicFn func(fr *frame, args []value) value

type Stats struct {
	branchQueries atomic.Int64
	forks         atomic.Int64
	cuts          atomic.Int64
	paths         atomic.Int64
	obligations   atomic.Int64
	discharged    atomic.Int64
	steps         atomic.Int64
}

type Engine struct {
	repo    string
	prog    *ssa.Program
	pkgs    []*packages.Package
	allPkgs []*packages.Package // topological (deps first)
	fset    *token.FileSet
	overlay map[string][]byte

	muIntr     sync.RWMutex
	intrinsics map[*ssa.Function]intrinsicFn
	overrides  map[*ssa.Function]*ssa.Function

	maxSteps, maxBranches, maxDepth, maxAlloc, maxConcreteAlloc int
	allMapOrders, ignoreGo, symFloatFree                        bool
	solverKind, logic                                           string
	forbidEvents                                                []string
	guards                                                      []guard
	crossEvery                                                  int
	queryTimeoutMs                                              int
	params                                                      map[string]int
	collisionFree                                               map[string]bool // UF names with injectivity axiom

	shared   map[*ssa.Global]*value
	poisoned map[*ssa.Global]string
	sharedMu sync.Mutex
	initFail map[string]string

	runtimeErrorString types.Type
	stats              Stats
	verbose            int
}

func (e *Engine) setIntrinsic(fn *ssa.Function, f intrinsicFn) {
	e.muIntr.Lock()
	e.intrinsics[fn] = f
	e.muIntr.Unlock()
}

func (e *Engine) getIntrinsic(fn *ssa.Function) (intrinsicFn, bool) {
	e.muIntr.RLock()
	f, ok := e.intrinsics[fn]
	e.muIntr.RUnlock()
	return f, ok
}

func stackTrace() string { return string(debug.Stack()) }

func isMutablePkg(p *ssa.Package) bool {
	if p == nil {
		return false
	}
	path := p.Pkg.Path()
	return path == polyMod || strings.HasPrefix(path, polyMod+"/")
}

// Load loads the given package patterns from repo with overlay files.
func Load(repo string, overlay map[string][]byte, patterns []string) (*Engine, error) {
	t0 := time.Now()
	cfg := &packages.Config{
		Mode: packages.NeedName | packages.NeedFiles | packages.NeedCompiledGoFiles | packages.NeedImports |
			packages.NeedDeps | packages.NeedTypes | packages.NeedSyntax | packages.NeedTypesInfo | packages.NeedTypesSizes | packages.NeedModule,
		Dir:        repo,
		Overlay:    overlay,
		BuildFlags: []string{"-tags=verif"},
		Env:        append(os.Environ(), "GOFLAGS=-mod=mod", "GOPROXY=off", "GOSUMDB=off", "GOTOOLCHAIN=local", "CGO_ENABLED=1"),
	}
	pkgs, err := packages.Load(cfg, patterns...)
	if err != nil {
		return nil, err
	}
	nerr := 0
	packages.Visit(pkgs, nil, func(p *packages.Package) {
		for _, e := range p.Errors {
			if isPolyPath(p.PkgPath) {
				fmt.Fprintf(os.Stderr, "load error in %s: %v\n", p.PkgPath, e)
				nerr++
			}
		}
	})
	if nerr > 0 {
		return nil, fmt.Errorf("%d load errors in poly packages", nerr)
	}
	// ssautil.AllPackages skips packages that are (transitively) ill-typed: the cgo package
	// harmony-one/bls would take cross_chain_manager with it. Create every package ourselves:
	// packages without errors of their own from syntax, the others as declarations only.
	var fset0 *token.FileSet
	if len(pkgs) > 0 {
		fset0 = pkgs[0].Fset
	}
	prog := ssa.NewProgram(fset0, ssa.InstantiateGenerics)
	packages.Visit(pkgs, nil, func(p *packages.Package) {
		if p.Types == nil {
			return
		}
		if len(p.Errors) == 0 && p.TypesInfo != nil {
			prog.CreatePackage(p.Types, p.Syntax, p.TypesInfo, true)
		} else {
			prog.CreatePackage(p.Types, nil, nil, true)
		}
	})
	prog.Build()
	e := &Engine{repo: repo, prog: prog, pkgs: pkgs, fset: prog.Fset, overlay: overlay,
		intrinsics: map[*ssa.Function]intrinsicFn{}, overrides: map[*ssa.Function]*ssa.Function{},
		maxSteps: 2000000, maxBranches: 400, maxDepth: 400, maxAlloc: 64, maxConcreteAlloc: 1 << 22,
		solverKind: "z3", queryTimeoutMs: 60000, params: map[string]int{}, collisionFree: map[string]bool{},
		shared: map[*ssa.Global]*value{}, poisoned: map[*ssa.Global]string{}, initFail: map[string]string{}}
	// topological order
	seen := map[*packages.Package]bool{}
	var visit func(p *packages.Package)
	visit = func(p *packages.Package) {
		if seen[p] {
			return
		}
		seen[p] = true
		var imps []string
		for k := range p.Imports {
			imps = append(imps, k)
		}
		sort.Strings(imps)
		for _, k := range imps {
			visit(p.Imports[k])
		}
		e.allPkgs = append(e.allPkgs, p)
	}
	for _, p := range pkgs {
		visit(p)
	}
	if rt := prog.ImportedPackage("runtime"); rt != nil {
		if m := rt.Members["errorString"]; m != nil {
			e.runtimeErrorString = m.Type()
		}
	}
	if e.verbose > 0 || os.Getenv("GOSYM_VERBOSE") != "" {
		fmt.Fprintf(os.Stderr, "loaded %d packages in %v\n", len(e.allPkgs), time.Since(t0))
	}
	return e, nil
}

func isPolyPath(p string) bool { return p == polyMod || strings.HasPrefix(p, polyMod+"/") }

var initDeny = map[string]bool{
	"runtime": true, "reflect": true, "os": true, "syscall": true, "unsafe": true,
	"internal/poll": true, "net": true, "os/signal": true, "os/exec": true, "os/user": true,
	"runtime/debug": true, "runtime/pprof": true, "runtime/trace": true, "runtime/cgo": true,
	"crypto/rand": true, "log": true, "testing": true, "flag": true, "net/http": true,
	"internal/godebug": true, "internal/cpu": true, "internal/abi": true, "internal/reflectlite": true,
	"mime": true, "expvar": true, "plugin": true,
}

func (e *Engine) newInterp() (*Interp, error) {
	ctx := NewCtx()
	sol, err := NewSolver(e.solverKind, ctx, e.queryTimeoutMs, e.logic)
	if err != nil {
		return nil, err
	}
	sol.cross = e.crossEvery
	in := &Interp{eng: e, prog: e.prog, ctx: ctx, sol: sol, sizes: &types.StdSizes{WordSize: 8, MaxAlign: 8},
		fnInfos: map[*ssa.Function]*fnInfo{}, constCache: map[*ssa.Const]value{}, intrCache: map[*ssa.Function]intrinsicFn{}}
	return in, nil
}

// InitShared runs the package initialisers of all non-poly packages once (shared, read-mostly world).
func (e *Engine) InitShared() {
	t0 := time.Now()
	in, err := e.newInterp()
	if err != nil {
		panic(err)
	}
	defer in.sol.Close()
	nOK, nFail, nSkip := 0, 0, 0
	for _, p := range e.allPkgs {
		sp := e.prog.Package(p.Types)
		if sp == nil || isMutablePkg(sp) {
			continue
		}
		initFn := sp.Func("init")
		if initFn == nil {
			continue
		}
		guard, _ := sp.Members["init$guard"].(*ssa.Global)
		if initDeny[p.PkgPath] || strings.HasPrefix(p.PkgPath, "internal/") && !initAllowInternal[p.PkgPath] || len(p.Errors) > 0 {
			e.poisonPackage(sp, "init skipped (deny-list or load errors)", nil)
			if guard != nil {
				cell := new(value)
				*cell = in.ctx.tt
				e.shared[guard] = cell
			}
			nSkip++
			continue
		}
		stored := map[*ssa.Global]bool{}
		in.ps = &PathState{initMode: true, inputNames: map[string]int{}}
		in.ps.storedGlobals = stored
		saveSteps := e.maxSteps
		e.maxSteps = 3000000
		errMsg := in.runInit(initFn)
		e.maxSteps = saveSteps
		if errMsg != "" {
			e.initFail[p.PkgPath] = errMsg
			e.poisonPackage(sp, "init failed: "+errMsg, stored)
			nFail++
		} else {
			nOK++
		}
	}
	e.installPresets()
	if os.Getenv("GOSYM_VERBOSE") != "" {
		fmt.Fprintf(os.Stderr, "shared init: %d ok, %d failed, %d skipped in %v\n", nOK, nFail, nSkip, time.Since(t0))
		var ks []string
		for k := range e.initFail {
			ks = append(ks, k)
		}
		sort.Strings(ks)
		for _, k := range ks {
			fmt.Fprintf(os.Stderr, "  init fail %s: %s\n", k, firstLine(e.initFail[k]))
		}
	}
}

var initAllowInternal = map[string]bool{
	"internal/bytealg": false, "internal/itoa": true, "internal/byteorder": true, "internal/stringslite": true,
	"internal/unsafeheader": true, "internal/race": true, "internal/oserror": true, "internal/goarch": true, "internal/goos": true,
}

func firstLine(s string) string {
	if i := strings.IndexByte(s, '\n'); i >= 0 {
		return s[:i]
	}
	return s
}

func (e *Engine) poisonPackage(sp *ssa.Package, why string, stored map[*ssa.Global]bool) {
	initFn := sp.Func("init")
	if initFn == nil {
		return
	}
	// every global the initialiser touches (directly stored, or initialised element-wise through
	// its address) is suspect unless its direct store was executed before the failure
	for _, b := range initFn.Blocks {
		for _, ins := range b.Instrs {
			for _, op := range ins.Operands(nil) {
				if op == nil || *op == nil {
					continue
				}
				if g, ok := (*op).(*ssa.Global); ok && g.Pkg == sp && !stored[g] && g.Name() != "init$guard" {
					e.poisoned[g] = sp.Pkg.Path() + ": " + why
				}
			}
		}
	}
}

// runInit executes an init function in init mode; returns error text or "".
func (in *Interp) runInit(fn *ssa.Function) (errMsg string) {
	defer func() {
		if r := recover(); r != nil {
			switch x := r.(type) {
			case engineError:
				errMsg = x.msg
			case pathEnd:
				errMsg = "path end: " + x.kind + " " + x.msg
			case targetPanic:
				errMsg = "panic: " + x.msg
			case wrappedGoPanic:
				errMsg = fmt.Sprintf("engine crash: %v at %s", x.r, x.where)
			default:
				errMsg = fmt.Sprintf("engine crash: %v", r)
			}
		}
	}()
	in.callSSA(nil, token.NoPos, fn, nil, nil)
	return ""
}

func (in *Interp) globalAddr(g *ssa.Global) *value {
	ps := in.ps
	if isMutablePkg(g.Pkg) && !ps.initMode {
		if p, ok := ps.globals[g]; ok {
			return p
		}
		cell := new(value)
		*cell = in.zero(deref(g.Type()))
		ps.globals[g] = cell
		return cell
	}
	e := in.eng
	if !ps.initMode {
		if why, bad := e.poisoned[g]; bad {
			panic(engineErr("read of global %s whose initialiser did not run (%s)", g.String(), why))
		}
	}
	e.sharedMu.Lock()
	p, ok := e.shared[g]
	if !ok {
		p = new(value)
		*p = in.zero(deref(g.Type()))
		e.shared[g] = p
	}
	e.sharedMu.Unlock()
	return p
}

// ---- harness spec & results ----

type Violation struct {
	Harness string            `json:"harness"`
	Kind    string            `json:"kind"` // assert | panic
	Msg     string            `json:"msg"`
	Where   string            `json:"where"`
	Inputs  map[string]string `json:"inputs"`
	Trace   []int             `json:"trace"`
	Params  map[string]int    `json:"params"`
	UsesUF  bool              `json:"uses_uf"`
}

type PathResult struct {
	end        string // done | infeasible | cut | unwind | unknown | panic | engine
	msg        string
	forks      []pendingFork
	violations []Violation
	covers     []string
	events     []string
	steps      int
	decisions  int
	obligs     int
	funcs      map[*ssa.Function]int
	inputs     []string
}

type HarnessResult struct {
	Name                                 string
	Paths                                int
	PathEnds                             map[string]int
	Decisions                            int64
	Obligations                          int64
	Violations                           []Violation
	Covers                               map[string]int
	Events                               map[string]int
	EngineErrors                         []string
	Unknowns                             []string
	Unwinds                              []string
	Steps                                int64
	Funcs                                map[string]int
	Inputs                               map[string]bool
	Wall                                 time.Duration
	SolverTime                           time.Duration
	Queries                              int
	Cross, CrossAgree, CrossInconclusive int
	CrossDisagree                        []string
	SamplePaths                          []string
	Truncated                            bool
}

// RunHarness explores all paths of fn with nworkers workers.
func (e *Engine) RunHarness(fn *ssa.Function, nworkers int, maxPaths int, deadline time.Time) *HarnessResult {
	res := &HarnessResult{Name: fn.Name(), PathEnds: map[string]int{}, Covers: map[string]int{}, Events: map[string]int{}, Funcs: map[string]int{}, Inputs: map[string]bool{}}
	t0 := time.Now()
	var mu sync.Mutex
	cond := sync.NewCond(&mu)
	work := [][]int{{}}
	active := 0
	stop := false
	var wg sync.WaitGroup
	for w := 0; w < nworkers; w++ {
		wg.Add(1)
		go func(w int) {
			defer wg.Done()
			in, err := e.newInterp()
			if err != nil {
				mu.Lock()
				res.EngineErrors = append(res.EngineErrors, "solver start: "+err.Error())
				stop = true
				cond.Broadcast()
				mu.Unlock()
				return
			}
			defer func() {
				mu.Lock()
				res.SolverTime += in.sol.solveTime
				res.Queries += in.sol.nCheck
				res.Cross += in.sol.nCross
				res.CrossAgree += in.sol.nCrossAgree
				res.CrossInconclusive += in.sol.nCrossInconclusive
				res.CrossDisagree = append(res.CrossDisagree, in.sol.crossDisagree...)
				mu.Unlock()
				in.sol.Close()
			}()
			for {
				mu.Lock()
				for len(work) == 0 && active > 0 && !stop {
					cond.Wait()
				}
				if stop || len(work) == 0 {
					mu.Unlock()
					cond.Broadcast()
					return
				}
				prefix := work[len(work)-1]
				work = work[:len(work)-1]
				active++
				mu.Unlock()

				pr := in.runPath(fn, prefix)

				mu.Lock()
				active--
				res.Paths++
				res.PathEnds[pr.end]++
				res.Decisions += int64(pr.decisions)
				res.Obligations += int64(pr.obligs)
				res.Steps += int64(pr.steps)
				for _, f := range pr.forks {
					work = append(work, f.prefix)
				}
				res.Violations = append(res.Violations, pr.violations...)
				for _, c := range pr.covers {
					res.Covers[c]++
				}
				for _, ev := range pr.events {
					res.Events[ev]++
				}
				for f, n := range pr.funcs {
					res.Funcs[shortFn(f)] += n
				}
				for _, n := range pr.inputs {
					res.Inputs[n] = true
				}
				switch pr.end {
				case "engine":
					if len(res.EngineErrors) < 5 {
						res.EngineErrors = append(res.EngineErrors, pr.msg)
					}
					stop = true
				case "unknown":
					if len(res.Unknowns) < 5 {
						res.Unknowns = append(res.Unknowns, pr.msg)
					}
				case "unwind":
					if len(res.Unwinds) < 5 {
						res.Unwinds = append(res.Unwinds, pr.msg)
					}
				}
				if len(res.SamplePaths) < 4 && (pr.end == "done") {
					res.SamplePaths = append(res.SamplePaths, fmt.Sprintf("trace=%v steps=%d obligations=%d covers=%v", prefixOf(pr), pr.steps, pr.obligs, pr.covers))
				}
				if maxPaths > 0 && res.Paths >= maxPaths && len(work) > 0 {
					res.Truncated = true
					stop = true
				}
				if !deadline.IsZero() && time.Now().After(deadline) && len(work) > 0 {
					res.Truncated = true
					stop = true
				}
				if len(res.Violations) >= 3 {
					stop = true
				}
				cond.Broadcast()
				mu.Unlock()
			}
		}(w)
	}
	wg.Wait()
	res.Wall = time.Since(t0)
	return res
}

func prefixOf(pr PathResult) string { return fmt.Sprintf("%d decisions", pr.decisions) }

// runPath executes one path of fn following prefix.
func (in *Interp) runPath(fn *ssa.Function, prefix []int) (pr PathResult) {
	e := in.eng
	ps := &PathState{prefix: prefix, globals: map[*ssa.Global]*value{}, inputNames: map[string]int{},
		hashApps: map[string][]hashApp{}, hashPending: map[string][]hashApp{}, hashSymSeen: map[string]bool{}, learned: map[*Term]interval{}, rangeCache: map[*Term]interval{}, funcsSeen: map[*ssa.Function]int{}, mutexes: map[*value]int{}}
	in.ps = ps
	in.sol.BeginPath()
	defer func() {
		r := recover()
		pr.forks = ps.forks
		pr.covers = ps.covers
		pr.events = ps.events
		pr.steps = ps.steps
		pr.decisions = len(ps.trace)
		pr.obligs = ps.obligs
		pr.violations = ps.violations
		pr.funcs = ps.funcsSeen
		for _, t := range ps.inputs {
			pr.inputs = append(pr.inputs, t.name)
		}
		for _, ev := range ps.events {
			for _, fb := range e.forbidEvents {
				if strings.Contains(ev, fb) && !ps.forbidReported[ev] {
					if ps.forbidReported == nil {
						ps.forbidReported = map[string]bool{}
					}
					ps.forbidReported[ev] = true
					if v := in.mkViolation(fn, "event", "forbidden event: "+ev, ""); v != nil {
						pr.violations = append(pr.violations, *v)
					}
				}
			}
		}
		if r != nil {
			switch x := r.(type) {
			case pathEnd:
				pr.end, pr.msg = x.kind, x.msg
			case engineError:
				pr.end, pr.msg = "engine", x.msg
			case targetPanic:
				// uncaught panic in harness: violation if feasible
				pr.end, pr.msg = "panic", x.msg
				if v := in.mkViolation(fn, "panic", "uncaught panic: "+x.msg, ""); v != nil {
					pr.violations = append(pr.violations, *v)
				}
			case wrappedGoPanic:
				pr.end, pr.msg = "engine", fmt.Sprintf("engine crash: %v at %s\n%s", x.r, x.where, x.stack)
			default:
				pr.end, pr.msg = "engine", fmt.Sprintf("engine crash: %v\n%s", r, stackTrace())
			}
		} else {
			pr.end = "done"
		}
		in.sol.EndPath()
		e.stats.paths.Add(1)
		e.stats.steps.Add(int64(ps.steps))
	}()
	// per-path initialisation of poly packages (through the harness package's init)
	if initFn := fn.Pkg.Func("init"); initFn != nil {
		ps.initMode = false
		in.callSSA(nil, token.NoPos, initFn, nil, nil)
	}
	ps.steps = 0
	in.callSSA(nil, token.NoPos, fn, nil, nil)
	return
}

// mkViolation asks the solver for a model of the current path condition (plus extra) and packages it.
func (in *Interp) mkViolation(fn *ssa.Function, kind, msg string, where string) *Violation {
	r := in.sol.Check(nil)
	defer in.sol.PopCheck()
	if r != "sat" {
		if r != "unsat" {
			in.ps.events = append(in.ps.events, "unknown while confirming "+kind)
		}
		return nil
	}
	return in.violationFromModel(fn, kind, msg, where)
}

func (in *Interp) violationFromModel(fn *ssa.Function, kind, msg, where string) *Violation {
	m, err := in.sol.Model(in.ps.inputs)
	if err != nil {
		in.ps.events = append(in.ps.events, "model extraction failed: "+err.Error())
	}
	inputs := map[string]string{}
	for _, t := range in.ps.inputs {
		if v, ok := m[t.name]; ok {
			inputs[strings.TrimPrefix(t.name, "in!")] = parseValue(v)
		}
	}
	return &Violation{Harness: fn.Name(), Kind: kind, Msg: msg, Where: where, Inputs: inputs,
		Trace: append([]int(nil), in.ps.trace...), Params: in.eng.params, UsesUF: len(in.ps.hashApps) > 0 || in.ps.usedUF}
}

// findFunc resolves "pkgpath.Name" or "(pkgpath.T).M" / "(*pkgpath.T).M" to an ssa function.
func (e *Engine) findFunc(name string) *ssa.Function {
	for fn := range ssautil.AllFunctions(e.prog) {
		if fn.String() == name {
			return fn
		}
	}
	return nil
}

func (e *Engine) funcIndex() map[string]*ssa.Function {
	idx := map[string]*ssa.Function{}
	for fn := range ssautil.AllFunctions(e.prog) {
		idx[fn.String()] = fn
	}
	return idx
}

func readOverlayDir(dir, dstDir string, overlay map[string][]byte) error {
	ents, err := os.ReadDir(dir)
	if err != nil {
		return err
	}
	for _, en := range ents {
		if strings.HasSuffix(en.Name(), ".go") {
			b, err := os.ReadFile(filepath.Join(dir, en.Name()))
			if err != nil {
				return err
			}
			overlay[filepath.Join(dstDir, en.Name())] = b
		}
	}
	return nil
}
