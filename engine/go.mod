module gosym

go 1.23

require (
	github.com/ontio/ontology-crypto v1.0.9
	golang.org/x/crypto v0.0.0-20220214200702-86341886e292
	golang.org/x/tools v0.29.0
)

require (
	github.com/btcsuite/btcd v0.21.0-beta // indirect
	github.com/itchyny/base58-go v0.1.0 // indirect
	golang.org/x/sys v0.29.0 // indirect
)

require (
	golang.org/x/mod v0.22.0 // indirect
	golang.org/x/sync v0.10.0 // indirect
)
