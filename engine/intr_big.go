package main

// math/big.Int over the SMT Int theory.
//
// A *big.Int whose value is symbolic keeps an Int-sorted term in the first slot of its struct cell
// (where `neg bool` lives); concrete values keep the real representation (neg, abs []Word), so code
// that is not intercepted (formatting, parsing, package initialisers) keeps working on them.
// An intercepted method goes to the Int theory only when an operand is symbolic; otherwise the
// real SSA of math/big is interpreted. Div/Mod are Euclidean (SMT-LIB div/mod), Quo/Rem truncate.

import (
	"math/big"
)

func init() {
	p := "(*math/big.Int)."
	bin := func(f func(in *Interp, x, y *Term) *Term) intrinsicFn {
		return func(fr *frame, a []value) value {
			in := fr.in
			x, sx := in.bigGet(a[1])
			y, sy := in.bigGet(a[2])
			if !sx && !sy {
				return notHandled{}
			}
			in.bigSet(a[0], f(in, x, y))
			return a[0]
		}
	}
	intrinsicTable[p+"Add"] = bin(func(in *Interp, x, y *Term) *Term { return in.ctx.intBin(OIntAdd, x, y) })
	intrinsicTable[p+"Sub"] = bin(func(in *Interp, x, y *Term) *Term { return in.ctx.intBin(OIntSub, x, y) })
	intrinsicTable[p+"Mul"] = bin(func(in *Interp, x, y *Term) *Term { return in.ctx.intBin(OIntMul, x, y) })
	intrinsicTable[p+"Div"] = bin(func(in *Interp, x, y *Term) *Term {
		in.bigNonZero(y)
		return in.ctx.intBin(OIntDiv, x, y)
	})
	intrinsicTable[p+"Mod"] = bin(func(in *Interp, x, y *Term) *Term {
		in.bigNonZero(y)
		return in.ctx.intBin(OIntMod, x, y)
	})
	intrinsicTable[p+"Quo"] = bin(func(in *Interp, x, y *Term) *Term {
		in.bigNonZero(y)
		c := in.ctx
		q := c.intBin(OIntDiv, in.intAbs(x), in.intAbs(y))
		neg := c.Not(c.Eq(c.intBin(OIntLt, x, in.intK(0)), c.intBin(OIntLt, y, in.intK(0))))
		return c.Ite(neg, in.intNeg(q), q)
	})
	intrinsicTable[p+"Rem"] = bin(func(in *Interp, x, y *Term) *Term {
		in.bigNonZero(y)
		c := in.ctx
		r := c.intBin(OIntMod, in.intAbs(x), in.intAbs(y))
		return c.Ite(c.intBin(OIntLt, x, in.intK(0)), in.intNeg(r), r)
	})
	un := func(f func(in *Interp, x *Term) *Term) intrinsicFn {
		return func(fr *frame, a []value) value {
			in := fr.in
			x, sx := in.bigGet(a[1])
			if !sx {
				return notHandled{}
			}
			in.bigSet(a[0], f(in, x))
			return a[0]
		}
	}
	intrinsicTable[p+"Set"] = un(func(in *Interp, x *Term) *Term { return x })
	intrinsicTable[p+"Neg"] = un(func(in *Interp, x *Term) *Term { return in.intNeg(x) })
	intrinsicTable[p+"Abs"] = un(func(in *Interp, x *Term) *Term { return in.intAbs(x) })
	intrinsicTable[p+"SetUint64"] = func(fr *frame, a []value) value {
		in := fr.in
		t := a[1].(*Term)
		if t.isConst() {
			return notHandled{}
		}
		in.bigSet(a[0], in.ctx.Bv2Nat(t))
		return a[0]
	}
	intrinsicTable[p+"SetInt64"] = func(fr *frame, a []value) value {
		in := fr.in
		t := a[1].(*Term)
		if t.isConst() {
			return notHandled{}
		}
		in.bigSet(a[0], in.intFromSigned(t))
		return a[0]
	}
	intrinsicTable["math/big.NewInt"] = func(fr *frame, a []value) value {
		in := fr.in
		t := a[0].(*Term)
		if t.isConst() {
			return notHandled{}
		}
		cell := new(value)
		*cell = structure{in.ctx.ff, SliceV{off: in.ctx.zero64, len: in.ctx.zero64, cap: in.ctx.zero64}}
		in.bigSet(cell, in.intFromSigned(t))
		return cell
	}
	intrinsicTable[p+"Cmp"] = func(fr *frame, a []value) value {
		in := fr.in
		c := in.ctx
		x, sx := in.bigGet(a[0])
		y, sy := in.bigGet(a[1])
		if !sx && !sy {
			return notHandled{}
		}
		return c.Ite(c.intBin(OIntLt, x, y), c.I64(-1), c.Ite(c.Eq(x, y), c.zero64, c.one64))
	}
	intrinsicTable[p+"CmpAbs"] = func(fr *frame, a []value) value {
		in := fr.in
		c := in.ctx
		x, sx := in.bigGet(a[0])
		y, sy := in.bigGet(a[1])
		if !sx && !sy {
			return notHandled{}
		}
		x, y = in.intAbs(x), in.intAbs(y)
		return c.Ite(c.intBin(OIntLt, x, y), c.I64(-1), c.Ite(c.Eq(x, y), c.zero64, c.one64))
	}
	intrinsicTable[p+"Sign"] = func(fr *frame, a []value) value {
		in := fr.in
		c := in.ctx
		x, sx := in.bigGet(a[0])
		if !sx {
			return notHandled{}
		}
		return c.Ite(c.intBin(OIntLt, x, in.intK(0)), c.I64(-1), c.Ite(c.Eq(x, in.intK(0)), c.zero64, c.one64))
	}
	intrinsicTable[p+"Uint64"] = func(fr *frame, a []value) value {
		in := fr.in
		x, sx := in.bigGet(a[0])
		if !sx {
			return notHandled{}
		}
		// low 64 bits of |x|
		return in.ctx.Int2Bv(64, in.intAbs(x))
	}
	intrinsicTable[p+"Int64"] = func(fr *frame, a []value) value {
		in := fr.in
		x, sx := in.bigGet(a[0])
		if !sx {
			return notHandled{}
		}
		return in.ctx.Int2Bv(64, x)
	}
	intrinsicTable[p+"IsUint64"] = func(fr *frame, a []value) value {
		in := fr.in
		c := in.ctx
		x, sx := in.bigGet(a[0])
		if !sx {
			return notHandled{}
		}
		lim := c.IntConst(new(big.Int).Lsh(big.NewInt(1), 64))
		return c.And(c.intBin(OIntLe, in.intK(0), x), c.intBin(OIntLt, x, lim))
	}
	intrinsicTable[p+"IsInt64"] = func(fr *frame, a []value) value {
		in := fr.in
		c := in.ctx
		x, sx := in.bigGet(a[0])
		if !sx {
			return notHandled{}
		}
		lim := new(big.Int).Lsh(big.NewInt(1), 63)
		return c.And(c.intBin(OIntLe, c.IntConst(new(big.Int).Neg(lim)), x), c.intBin(OIntLt, x, c.IntConst(lim)))
	}
	shift := func(left bool) intrinsicFn {
		return func(fr *frame, a []value) value {
			in := fr.in
			x, sx := in.bigGet(a[1])
			if !sx {
				return notHandled{}
			}
			n := a[2].(*Term)
			if !n.isConst() {
				panic(engineErr("big.Int shift by a symbolic amount"))
			}
			k := in.ctx.IntConst(new(big.Int).Lsh(big.NewInt(1), uint(n.val)))
			if left {
				in.bigSet(a[0], in.ctx.intBin(OIntMul, x, k))
			} else {
				// Rsh rounds toward negative infinity for negative x (arithmetic shift) = floor division
				in.bigSet(a[0], in.ctx.intBin(OIntDiv, x, k))
			}
			return a[0]
		}
	}
	intrinsicTable[p+"Lsh"] = shift(true)
	intrinsicTable[p+"Rsh"] = shift(false)
	intrinsicTable[p+"Exp"] = func(fr *frame, a []value) value {
		in := fr.in
		x, sx := in.bigGet(a[1])
		y, sy := in.bigGet(a[2])
		var msym bool
		var m *Term
		if p, ok := a[3].(*value); ok && p != nil {
			m, msym = in.bigGet(a[3])
		}
		if !sx && !sy && !msym {
			return notHandled{}
		}
		if !y.isConst() {
			// case-split the exponent over its feasible small values
			found := false
			for k := int64(-1); k <= 256; k++ {
				var cnd *Term
				if k < 0 {
					cnd = in.ctx.intBin(OIntLt, y, in.intK(0))
				} else {
					cnd = in.ctx.Eq(y, in.intK(k))
				}
				if in.decide(cnd) {
					y = in.intK(k)
					found = true
					break
				}
			}
			if !found {
				in.ps.events = append(in.ps.events, "bound-cut: big.Int.Exp exponent > 256")
				in.eng.stats.cuts.Add(1)
				panic(pathEnd{"cut", "big.Int.Exp exponent beyond 256"})
			}
		}
		if m != nil && !(m.isConst() && m.big.Sign() == 0) {
			panic(engineErr("big.Int.Exp with a modulus"))
		}
		e := y.big.Int64()
		if y.big.Sign() <= 0 {
			in.bigSet(a[0], in.intK(1))
			return a[0]
		}
		if e > 4096 {
			panic(engineErr("big.Int.Exp exponent too large"))
		}
		r := in.intK(1)
		for i := int64(0); i < e; i++ {
			r = in.ctx.intBin(OIntMul, r, x)
		}
		in.bigSet(a[0], r)
		return a[0]
	}
	intrinsicTable[p+"SetBytes"] = func(fr *frame, a []value) value {
		in := fr.in
		s := a[1].(SliceV)
		if _, ok := in.concreteBytes(s); ok {
			return notHandled{}
		}
		b := in.sliceTerms(s)
		c := in.ctx
		r := in.intK(0)
		for _, t := range b {
			r = c.intBin(OIntAdd, c.intBin(OIntMul, r, in.intK(256)), c.Bv2Nat(t))
		}
		in.bigSet(a[0], r)
		return a[0]
	}
}

func (in *Interp) intK(v int64) *Term { return in.ctx.IntConst(big.NewInt(v)) }

func (in *Interp) intNeg(x *Term) *Term {
	if x.isConst() {
		return in.ctx.IntConst(new(big.Int).Neg(x.big))
	}
	return in.ctx.intBin(OIntSub, in.intK(0), x)
}

func (in *Interp) intAbs(x *Term) *Term {
	if x.isConst() {
		return in.ctx.IntConst(new(big.Int).Abs(x.big))
	}
	return in.ctx.Ite(in.ctx.intBin(OIntLt, x, in.intK(0)), in.intNeg(x), x)
}

func (in *Interp) intFromSigned(t *Term) *Term {
	c := in.ctx
	w := t.sort.W
	neg := c.Slt(t, c.BV(w, 0))
	return c.Ite(neg, in.intNeg(c.Bv2Nat(c.BvNeg(t))), c.Bv2Nat(t))
}

func (in *Interp) bigNonZero(y *Term) {
	if y.isConst() {
		if y.big.Sign() == 0 {
			in.runtimePanic("division by zero (big.Int)")
		}
		return
	}
	if in.decide(in.ctx.Eq(y, in.intK(0))) {
		in.runtimePanic("division by zero (big.Int)")
	}
}

// bigGet returns the Int term of a *big.Int and whether it is symbolic.
func (in *Interp) bigGet(p value) (*Term, bool) {
	ptr, ok := p.(*value)
	if !ok || ptr == nil {
		in.runtimePanic("invalid memory address or nil pointer dereference (nil *big.Int)")
	}
	st, ok := (*ptr).(structure)
	if !ok || len(st) != 2 {
		panic(engineErr("bigGet: not a big.Int cell"))
	}
	if t, ok := st[0].(*Term); ok && t.sort.K == SInt {
		return t, !t.isConst()
	}
	neg := st[0].(*Term)
	abs := st[1].(SliceV)
	c := in.ctx
	n := in.concretize(abs.len, in.sliceMax(abs), "big.Int word count")
	allConst := neg.isConst()
	r := in.intK(0)
	acc := new(big.Int)
	for i := n - 1; i >= 0; i-- {
		w := in.sliceGet(abs, i).(*Term)
		if !w.isConst() {
			allConst = false
		}
	}
	if allConst {
		for i := n - 1; i >= 0; i-- {
			w := in.sliceGet(abs, i).(*Term)
			acc.Lsh(acc, 64)
			acc.Or(acc, new(big.Int).SetUint64(w.val))
		}
		if neg.val == 1 {
			acc.Neg(acc)
		}
		return c.IntConst(acc), false
	}
	two64 := c.IntConst(new(big.Int).Lsh(big.NewInt(1), 64))
	for i := n - 1; i >= 0; i-- {
		w := in.sliceGet(abs, i).(*Term)
		r = c.intBin(OIntAdd, c.intBin(OIntMul, r, two64), c.Bv2Nat(w))
	}
	return c.Ite(neg, in.intNeg(r), r), true
}

// bigSet stores an Int term into a *big.Int: constants in the real representation, symbolic terms
// in the first slot.
func (in *Interp) bigSet(p value, t *Term) {
	ptr, ok := p.(*value)
	if !ok || ptr == nil {
		in.runtimePanic("invalid memory address or nil pointer dereference (nil *big.Int)")
	}
	st, ok := (*ptr).(structure)
	if !ok || len(st) != 2 {
		panic(engineErr("bigSet: not a big.Int cell"))
	}
	c := in.ctx
	if t.isConst() {
		st[0] = c.Bool(t.big.Sign() < 0)
		a := new(big.Int).Abs(t.big)
		var words []value
		for a.Sign() > 0 {
			words = append(words, c.BV(64, new(big.Int).And(a, new(big.Int).SetUint64(^uint64(0))).Uint64()))
			a.Rsh(a, 64)
		}
		n := c.I64(int64(len(words)))
		st[1] = SliceV{back: words, off: c.zero64, len: n, cap: n, nonnil: len(words) > 0}
		return
	}
	st[0] = t
	st[1] = SliceV{off: c.zero64, len: c.zero64, cap: c.zero64}
}
