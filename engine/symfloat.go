package main

// Symbolic float64 values of the restricted shape  (p/q) * num / den  with num, den unsigned 64-bit
// terms and p, q small integer constants. This covers the float code of the node (loss ratios,
// k*target thresholds) exactly: comparisons are decided by cross-multiplication in 128-bit
// bit-vectors. The encoding is exact only while every conversion and the single rounding of the
// division cannot change the outcome of the comparison; the engine checks sufficient conditions
// with interval reasoning (operands < 2^53, den >= 1, den*q*cq*max(p,cp,1) < 2^51) and refuses
// (engine error, never success) when it cannot establish them.
// (The SMT FloatingPoint theory was tried first: one fp.div query costs z3 12 s.)

import (
	"go/token"
	"math/big"
)

type SymF struct {
	num, den *Term // den == nil means 1
	p, q     uint64
}

func floatRat(f float64) (p, q uint64, neg bool, ok bool) {
	r := new(big.Rat)
	if r.SetFloat64(f) == nil {
		return 0, 0, false, false
	}
	if r.Sign() < 0 {
		neg = true
		r.Neg(r)
	}
	if !r.Num().IsUint64() || !r.Denom().IsUint64() {
		return 0, 0, neg, false
	}
	p, q = r.Num().Uint64(), r.Denom().Uint64()
	if p >= 1<<24 || q >= 1<<24 {
		return 0, 0, neg, false
	}
	return p, q, neg, true
}

func (in *Interp) symFFromInt(t *Term, signed bool) SymF {
	c := in.ctx
	iv := in.rangeOf(t)
	if signed && iv.hi > mask(t.sort.W)>>1 {
		panic(engineErr("symbolic float: conversion of a possibly negative integer (add an Assume)"))
	}
	if iv.hi >= 1<<53 {
		panic(engineErr("symbolic float: integer operand not provably below 2^53 (conversion would round; add an Assume bound)"))
	}
	return SymF{num: c.Zext(64, t), p: 1, q: 1}
}

func (in *Interp) isSymF(v value) bool { _, ok := v.(SymF); return ok }

func (in *Interp) symFArith(op token.Token, x, y value) value {
	a, aok := x.(SymF)
	b, bok := y.(SymF)
	switch op {
	case token.QUO:
		if aok && bok && a.den == nil && b.den == nil {
			if in.rangeOf(b.num).lo < 1 {
				panic(engineErr("symbolic float: divisor not provably >= 1 (add an Assume)"))
			}
			// (pa/qa * a) / (pb/qb * b) = (pa*qb)/(qa*pb) * a/b
			return SymF{num: a.num, den: b.num, p: a.p * b.q, q: a.q * b.p}
		}
		if aok && !bok {
			if f, ok := y.(float64); ok {
				if p, q, neg, ok := floatRat(f); ok && !neg && p != 0 {
					return SymF{num: a.num, den: a.den, p: a.p * q, q: a.q * p}
				}
			}
		}
	case token.MUL:
		if aok && !bok {
			x, y = y, x
			a, aok, bok = b, false, true
			_ = a
		}
		if !aok && bok {
			if f, ok := x.(float64); ok {
				if p, q, neg, ok := floatRat(f); ok && !neg {
					return SymF{num: b.num, den: b.den, p: b.p * p, q: b.q * q}
				}
			}
		}
	}
	panic(engineErr("symbolic float: unsupported arithmetic %v on %T, %T", op, x, y))
}

// symFCmp returns the Bool term for x op y.
func (in *Interp) symFCmp(op token.Token, x, y value) *Term {
	c := in.ctx
	a, aok := x.(SymF)
	b, bok := y.(SymF)
	if !aok {
		f, ok := x.(float64)
		if !ok {
			panic(engineErr("symbolic float: comparison with %T", x))
		}
		p, q, neg, ok := floatRat(f)
		if !ok || neg {
			panic(engineErr("symbolic float: unsupported constant %v", f))
		}
		a = SymF{num: c.one64, p: p, q: q}
	}
	if !bok {
		f, ok := y.(float64)
		if !ok {
			panic(engineErr("symbolic float: comparison with %T", y))
		}
		p, q, neg, ok := floatRat(f)
		if !ok || neg {
			panic(engineErr("symbolic float: unsupported constant %v", f))
		}
		b = SymF{num: c.one64, p: p, q: q}
	}
	// exactness: a rounding can only matter if the compared rationals are closer than half an ulp;
	// sufficient: all denominators small.
	dh := uint64(1)
	for _, s := range []SymF{a, b} {
		d := s.q
		if s.den != nil {
			hi := in.rangeOf(s.den).hi
			if hi >= 1<<53 {
				panic(engineErr("symbolic float: divisor not provably below 2^53"))
			}
			d *= hi
		}
		if d == 0 || dh > (1<<51)/d {
			panic(engineErr("symbolic float: cannot establish exactness of the comparison (denominators too large)"))
		}
		dh *= d
	}
	for _, s := range []SymF{a, b} {
		m := s.p
		if m < 1 {
			m = 1
		}
		if dh > (1<<51)/m {
			panic(engineErr("symbolic float: cannot establish exactness of the comparison (scale too large)"))
		}
	}
	w := func(t *Term) *Term { return c.Zext(192, t) }
	k := func(v uint64) *Term { return c.Zext(192, c.BV(64, v)) }
	den := func(s SymF) *Term {
		if s.den == nil {
			return k(1)
		}
		return w(s.den)
	}
	// a.p*a.num/(a.q*a.den)  op  b.p*b.num/(b.q*b.den)
	lhs := c.Mul(c.Mul(k(a.p*b.q), w(a.num)), den(b))
	rhs := c.Mul(c.Mul(k(b.p*a.q), w(b.num)), den(a))
	switch op {
	case token.EQL:
		return c.Eq(lhs, rhs)
	case token.LSS:
		return c.Ult(lhs, rhs)
	case token.LEQ:
		return c.Ule(lhs, rhs)
	case token.GTR:
		return c.Ult(rhs, lhs)
	case token.GEQ:
		return c.Ule(rhs, lhs)
	}
	panic(engineErr("symbolic float: comparison %v", op))
}
